"""Oracle C13 -- external-chain prior: unit-cube rescaling invertible, KDE term unit-free.

Sub-checks (each one = one generator of cases, replayable from its `case_seed`):
  history      random to_unity / from_unity call sequences on a real Chain against a two-state model
               (unit values, stored ranges, refusal of a repeated direction with the state left untouched,
               round trip restores the samples, weights / log-likelihoods never touched)
  vector       rescale_vector_to_unity / rescale_vector_from_unity: closed formula per column, mutual inverses,
               consistent with chain.rescale_dic for permuted key subsets
  kde_point    CosmoLikelihood.likelihood(with chain) - likelihood(without chain) == independently computed
               weighted Gaussian KDE at the point mapped with the chain's ranges, in the chain's own order
               (kde_full and kde_hist_nd, all cosmologies, fixed / free parameters)
  kde_affine   the same added term is invariant under an affine change of units of chain columns (point changed
               accordingly) and under re-ordering of the chain's parameter dict (through CosmoLikelihood)
  kde_direct   the same two invariances on KDELikelihood + rescale_vector_to_unity directly (arbitrary names,
               1..4 columns, negative scale factors, large offsets)
  planck       import_Planck_chain on synthetic Planck-format directories (shuffled .paramnames, several chain
               files, decoy lines): column = line number + 2, weights col 0, loglike col 1, rows stay aligned;
               optionally the imported chain is pushed through CosmoLikelihood and compared with the reference
  constant     (boundary) a chain with a constant column -> NaN: known finding "C13:constant_column"

Run: cd /verif && PYTHONPATH=/repo PYTHONHASHSEED=0 /venv/bin/python harness/oracle_C13.py --tier quick --seed 0 --out F
"""
import os, sys, json, shutil, copy, traceback

sys.path.insert(0, os.path.dirname(os.path.abspath(__file__)))
from common import *  # noqa: E402,F401
from scipy.special import logsumexp  # noqa: E402

from hierarc.Likelihood.KDELikelihood.chain import (Chain, import_Planck_chain, rescale_vector_to_unity,  # noqa: E402
                                                    rescale_vector_from_unity)
from hierarc.Likelihood.KDELikelihood.kde_likelihood import KDELikelihood  # noqa: E402
from hierarc.Likelihood.cosmo_likelihood import CosmoLikelihood  # noqa: E402

PROP = "C13"
SCRATCH = "/verif/build/oracle_scratch_C13"
EPS = np.finfo(float).eps
RULE = ("Chain: to_unity/from_unity are inverse, repeated direction refused with state untouched, vector helpers "
        "inverse and consistent with rescale_dic; KDE term of CosmoLikelihood == independent KDE at the point mapped "
        "with the chain's ranges/order, invariant under affine unit changes and parameter order; Planck import maps "
        "line number + 2, weights col 0, loglike col 1")

# A chain handed to CosmoLikelihood after rescale_from_unity() (flag False, stale ranges kept) has its KDE built on the
# raw samples while the evaluation point is still mapped to the unit cube: the added term is then neither the KDE
# of the chain nor unit-free.  Seen on the unchanged tree (NOT in known_findings.json) -> only tallied as an
# observation unless this switch is turned on.
REPORT_UNRESCALED_CHAIN = False


# ------------------------------------------------------------------------------------------------
# generators
# ------------------------------------------------------------------------------------------------
def gen_column(rng, n, style):
    if style == "normal":
        return rng.normal(rng.uniform(-100, 100), 10 ** rng.uniform(-3, 2), n)
    if style == "uniform":
        lo = rng.uniform(-5, 5)
        return rng.uniform(lo, lo + 10 ** rng.uniform(-2, 2), n)
    if style == "offset":  # large offset, small range: cancellation-prone
        return 10 ** rng.uniform(4, 8) * rng.choice([-1, 1]) + rng.normal(0, 10 ** rng.uniform(-2, 1), n)
    if style == "lognormal":
        return np.exp(rng.normal(0, 2, n))
    if style == "negative":
        return -np.abs(rng.normal(3, 1, n)) - 0.1
    if style == "int":
        v = rng.integers(-50, 50, n)
        if v.max() == v.min():
            v[0] += 1
        return v
    if style == "twovalued":
        v = rng.choice([1.5, 4.0], n)
        v[0], v[-1] = 1.5, 4.0
        return v
    raise ValueError(style)


STYLES = ["normal", "uniform", "offset", "lognormal", "negative", "int", "twovalued"]


def gen_chain_data(rng, n=None, d=None):
    n = int(rng.integers(2, 400)) if n is None else n
    d = int(rng.integers(1, 6)) if d is None else d
    names = ["p%d" % i for i in rng.permutation(8)[:d]]
    styles = [str(rng.choice(STYLES)) for _ in names]
    params = {k: gen_column(rng, n, s) for k, s in zip(names, styles)}
    wkind = str(rng.choice(["ones", "uniform", "integer"]))
    w = {"ones": np.ones(n), "uniform": rng.uniform(0.1, 3, n), "integer": rng.integers(1, 9, n).astype(float)}[wkind]
    logl = rng.normal(-1000, 3, n) if rng.random() < 0.5 else None
    return names, styles, params, w, wkind, logl


def col_scale(x):
    x = np.asarray(x, dtype=float)
    return max(abs(float(np.max(x))), abs(float(np.min(x))), 1e-300)


def unit_of(x):
    """independent closed formula (x - min) / (max - min)"""
    x = np.asarray(x, dtype=float)
    lo, hi = float(np.min(x)), float(np.max(x))
    return (x - lo) / (hi - lo), hi, lo


# ------------------------------------------------------------------------------------------------
# sub-check: history
# ------------------------------------------------------------------------------------------------
def check_history(rec, rng, inp):
    names, styles, params, w, wkind, logl = gen_chain_data(rng)
    n = len(w)
    nops = int(rng.integers(1, 13))
    # a sequence biased to contain repeated directions
    ops = [str(rng.choice(["to", "from"])) for _ in range(nops)]
    if rng.random() < 0.3:
        ops = ["from", "to", "to", "from", "from", "to"][:max(2, nops)]
    inp = dict(inp, names=names, styles=styles, n=n, weights=wkind, ops=ops)
    rec.case(dict(check="history", styles=styles, n=n, ops=ops), kind="history:len%d" % min(len(ops), 6))
    orig = {k: np.array(v, dtype=float) for k, v in params.items()}
    w0, l0 = w.copy(), (None if logl is None else logl.copy())
    ch = Chain("kw", "probe", {k: v.copy() for k, v in params.items()}, w, "FLCDM", loglsamples=logl, rescale=True)
    exp_unit = {k: unit_of(orig[k]) for k in names}
    cycles = 1

    def tol_unit(k):  # a re-rescaled column carries the rounding of the round trip: ~eps*|offset|/range per cycle
        u, hi, lo = exp_unit[k]
        return 1e-12 + 64 * EPS * col_scale(orig[k]) / (hi - lo) * cycles

    def check_state(rescaled, where):
        ok = True
        ok &= rec.check(ch.rescale_dic.get("rescaled") is rescaled, "C13:history:flag", "rescaled flag after %s" % where,
                        inp, ch.rescale_dic.get("rescaled"), rescaled)
        ok &= rec.check(list(ch.params.keys()) == names and ch.list_params() == names, "C13:history:keys",
                        "parameter names/order changed", inp, list(ch.params.keys()), names)
        for k in names:
            u, hi, lo = exp_unit[k]
            got = np.asarray(ch.params[k], dtype=float)
            if rescaled:
                ok &= rec.check(got.shape == u.shape and np.all(np.abs(got - u) <= tol_unit(k)), "C13:history:unit_values",
                                "unit values != (x-min)/(max-min) after %s" % where, dict(inp, column=k),
                                float(np.max(np.abs(got - u))) if got.shape == u.shape else got.shape, tol_unit(k))
                ok &= rec.check(float(np.min(got)) == 0.0 and float(np.max(got)) == 1.0, "C13:history:unit_range",
                                "rescaled column does not span exactly [0,1]", dict(inp, column=k),
                                [float(np.min(got)), float(np.max(got))], [0, 1])
            else:
                s = col_scale(orig[k])
                # 1e-12 relative to the column scale: each cycle costs a few ulp of max(|max|,|min|)
                ok &= rec.check(got.shape == orig[k].shape and np.all(np.abs(got - orig[k]) <= 1e-12 * s),
                                "C13:history:roundtrip", "from_unity(to_unity(x)) != x after %s" % where,
                                dict(inp, column=k), float(np.max(np.abs(got - orig[k])) / s), "<=1e-12 (relative)")
            if k in ch.rescale_dic:
                mx, mn = ch.rescale_dic[k]
                s = col_scale(orig[k])
                ok &= rec.check(abs(mx - hi) <= 1e-12 * s and abs(mn - lo) <= 1e-12 * s, "C13:history:ranges",
                                "rescale_dic[p] != [max, min] of the samples after %s" % where, dict(inp, column=k),
                                [mx, mn], [hi, lo])
            else:
                ok &= rec.check(False, "C13:history:ranges", "rescale_dic misses a parameter", dict(inp, column=k))
        ok &= rec.check(np.array_equal(ch.weights["default"], w0), "C13:history:weights_touched",
                        "weights modified by rescaling", inp)
        if l0 is not None:
            ok &= rec.check(np.array_equal(ch.loglsamples, l0), "C13:history:loglike_touched",
                            "loglsamples modified by rescaling", inp)
        return ok

    def snapshot():
        return ({k: np.array(v, copy=True) for k, v in ch.params.items()}, copy.deepcopy(ch.rescale_dic))

    def same(s):
        p, d = s
        if list(p.keys()) != list(ch.params.keys()) or d.keys() != ch.rescale_dic.keys():
            return False
        for k in p:
            if not np.array_equal(p[k], ch.params[k]):
                return False
        for k in d:
            if d[k] != ch.rescale_dic[k]:
                return False
        return True

    rescaled = True
    check_state(True, "construction")
    for i, op in enumerate(ops):
        fn = ch.rescale_to_unity if op == "to" else ch.rescale_from_unity
        must_refuse = (op == "to") == rescaled
        snap = snapshot()
        raised = None
        try:
            fn()
        except RuntimeError as e:
            raised = e
        except Exception as e:  # any other exception type: refusal of the wrong kind or a crash
            raised = e
            rec.check(False, "C13:history:raises_other", "rescale_%s raised %s" % (op, type(e).__name__),
                      dict(inp, step=i), repr(e), "RuntimeError on refusal, nothing otherwise")
        if must_refuse:
            rec.check(raised is not None, "C13:history:double_%s_not_refused" % op,
                      "second rescale in the same direction not refused", dict(inp, step=i), "no exception",
                      "RuntimeError")
            rec.check(same(snap), "C13:history:refusal_changed_state",
                      "refused rescale_%s changed params / rescale_dic" % op, dict(inp, step=i))
            if not same(snap):
                return
        else:
            if raised is not None:
                rec.check(False, "C13:history:legal_call_refused", "legal rescale_%s raised" % op, dict(inp, step=i),
                          repr(raised), "no exception")
                return
            rescaled = not rescaled
            if rescaled:
                cycles += 1
        if not check_state(rescaled, "step %d (%s)" % (i, op)):
            return


# ------------------------------------------------------------------------------------------------
# sub-check: vector helpers
# ------------------------------------------------------------------------------------------------
def check_vector(rec, rng, inp):
    names, styles, params, w, wkind, logl = gen_chain_data(rng, d=int(rng.integers(2, 6)))
    n = len(w)
    orig = {k: np.array(v, dtype=float) for k, v in params.items()}
    ch = Chain("kw", "probe", {k: v.copy() for k, v in params.items()}, w, "FLCDM", rescale=True)
    m = int(rng.integers(1, len(names) + 1))
    keys = [names[i] for i in rng.permutation(len(names))[:m]]
    nv = int(rng.integers(1, 6))
    inp = dict(inp, names=names, styles=styles, n=n, keys=keys, nvec=nv)
    rec.case(dict(check="vector", styles=styles, keys=keys, n=n), kind="vector:m%d" % m)
    # arbitrary vectors around the chain (inside and outside the hull)
    V = np.column_stack([rng.uniform(np.min(orig[k]) - 0.3 * np.ptp(orig[k]), np.max(orig[k]) + 0.3 * np.ptp(orig[k]), nv)
                         for k in keys])
    exp = np.column_stack([(V[:, i] - np.min(orig[k])) / (np.max(orig[k]) - np.min(orig[k])) for i, k in enumerate(keys)])
    got = rescale_vector_to_unity(V.copy(), ch.rescale_dic, keys)
    tol = np.array([1e-12 + 64 * EPS * col_scale(orig[k]) / np.ptp(orig[k]) for k in keys])
    rec.check(got.shape == exp.shape and np.all(np.abs(got - exp) <= tol), "C13:vector:to_unity_formula",
              "rescale_vector_to_unity != (v-min)/(max-min) per named column", inp,
              float(np.max(np.abs(got - exp))), "<= %g" % float(np.max(tol)))
    back = rescale_vector_from_unity(got.copy(), ch.rescale_dic, keys)
    sc = np.array([col_scale(orig[k]) for k in keys])
    rec.check(np.all(np.abs(back - V) <= 1e-12 * sc * 1.6), "C13:vector:from_after_to",
              "from_unity(to_unity(v)) != v", inp, float(np.max(np.abs(back - V) / sc)), "<=1e-12 relative")
    U = rng.uniform(-0.2, 1.2, (nv, m))
    expU = np.column_stack([U[:, i] * (np.max(orig[k]) - np.min(orig[k])) + np.min(orig[k]) for i, k in enumerate(keys)])
    gotU = rescale_vector_from_unity(U.copy(), ch.rescale_dic, keys)
    rec.check(np.all(np.abs(gotU - expU) <= 1e-12 * sc), "C13:vector:from_unity_formula",
              "rescale_vector_from_unity != u*(max-min)+min per named column", inp,
              float(np.max(np.abs(gotU - expU) / sc)), "<=1e-12 relative")
    backU = rescale_vector_to_unity(gotU.copy(), ch.rescale_dic, keys)
    rec.check(np.all(np.abs(backU - U) <= tol), "C13:vector:to_after_from", "to_unity(from_unity(u)) != u", inp,
              float(np.max(np.abs(backU - U))), "<= %g" % float(np.max(tol)))
    # consistency with the chain: the original samples map onto the chain's stored unit samples and back
    S = np.column_stack([orig[k] for k in keys])
    Su = rescale_vector_to_unity(S.copy(), ch.rescale_dic, keys)
    Cu = np.column_stack([ch.params[k] for k in keys])
    rec.check(np.all(np.abs(Su - Cu) <= tol), "C13:vector:chain_consistent",
              "vector helper and Chain.rescale_to_unity disagree on the chain's own samples", inp,
              float(np.max(np.abs(Su - Cu))), "<= %g" % float(np.max(tol)))
    Sb = rescale_vector_from_unity(Cu.copy(), ch.rescale_dic, keys)
    rec.check(np.all(np.abs(Sb - S) <= 1e-12 * sc), "C13:vector:chain_consistent",
              "vector from_unity of the chain's unit samples != original samples", inp,
              float(np.max(np.abs(Sb - S) / sc)), "<=1e-12 relative")


# ------------------------------------------------------------------------------------------------
# KDE references
# ------------------------------------------------------------------------------------------------
def ref_kde_full(U, w, pt, h):
    """log of the weighted Gaussian KDE sum_i w_i N(pt; U_i, h^2 I) / sum_i w_i  (closed formula)"""
    U = np.atleast_2d(U)
    d = U.shape[1]
    d2 = np.sum((U - np.asarray(pt)[None, :]) ** 2, axis=1)
    return float(logsumexp(-0.5 * d2 / h ** 2, b=w) - np.log(np.sum(w)) - d * np.log(h) - 0.5 * d * np.log(2 * np.pi))


def ref_kde_hist(U, pt, h, nb):
    """binned version: unweighted counts on an nb^d grid over [0,1]^d, KDE of the bin centres weighted by counts
    (this is what init_kernel_kdelikelihood_hist_nd documents; note that it ignores the chain weights)."""
    U = np.atleast_2d(U)
    n, d = U.shape
    idx = np.minimum(np.floor(U * nb).astype(int), nb - 1)
    flat = np.ravel_multi_index(idx.T, (nb,) * d)
    cnt = np.bincount(flat, minlength=nb ** d).astype(float)
    sel = cnt > 0
    cen = (np.column_stack(np.unravel_index(np.arange(nb ** d), (nb,) * d)) + 0.5) / nb
    return ref_kde_full(cen[sel], cnt[sel], pt, h)


COSMO_PARAMS = {"FLCDM": ["h0", "om"], "FwCDM": ["h0", "om", "w"], "w0waCDM": ["h0", "om", "w0", "wa"],
                "oLCDM": ["h0", "om", "ok"]}
CENTRE = {"h0": (70., 3.), "om": (0.3, 0.03), "w": (-1., 0.08), "w0": (-1., 0.08), "wa": (0., 0.15), "ok": (0., 0.03)}
LOWER = {"h0": 10., "om": 0.02, "w": -2., "w0": -2., "wa": -1.5, "ok": -0.3}
UPPER = {"h0": 300., "om": 0.95, "w": -0.3, "w0": -0.3, "wa": 1.5, "ok": 0.3}
LENS = dict(z_lens=0.5, z_source=2.0, likelihood_type="DdtGaussian", ddt_mean=4000., ddt_sigma=200.)


def gen_cosmo_setup(rng):
    cosmology = str(rng.choice(list(COSMO_PARAMS)))
    cp = COSMO_PARAMS[cosmology]
    fixed = {}
    if rng.random() < 0.3:
        k = str(rng.choice(cp))
        fixed[k] = float(rng.normal(*CENTRE[k]))
    m = int(rng.integers(1, len(cp) + 1))
    chain_keys = [cp[i] for i in rng.permutation(len(cp))[:m]]
    n = int(rng.integers(20, 400))
    cols = {k: rng.normal(CENTRE[k][0], CENTRE[k][1], n) for k in chain_keys}
    if len(chain_keys) > 1 and rng.random() < 0.5:  # correlated columns
        a, b = chain_keys[0], chain_keys[1]
        cols[b] = cols[b] + 0.7 * CENTRE[b][1] * (cols[a] - CENTRE[a][0]) / CENTRE[a][1]
    wkind = str(rng.choice(["ones", "uniform", "integer"]))
    w = {"ones": np.ones(n), "uniform": rng.uniform(0.1, 3, n), "integer": rng.integers(1, 9, n).astype(float)}[wkind]
    ltype = str(rng.choice(["kde_full", "kde_hist_nd"]))
    kde = dict(likelihood_type=ltype, bandwidth=float(10 ** rng.uniform(-1.7, -0.5)))
    if ltype == "kde_hist_nd":
        kde["nbins_hist"] = int(rng.integers(4, 16))
    interp = bool(rng.random() < 0.8)
    return dict(cosmology=cosmology, fixed=fixed, chain_keys=chain_keys, n=n, weights=wkind, kde=kde, interp=interp), cols, w


def make_likelihoods(setup, cols, w, order=None, rescale_back=False):
    cp = COSMO_PARAMS[setup["cosmology"]]
    kb = dict(kwargs_lower_cosmo={k: LOWER[k] for k in cp}, kwargs_upper_cosmo={k: UPPER[k] for k in cp},
              kwargs_fixed_cosmo=dict(setup["fixed"]))
    order = list(setup["chain_keys"]) if order is None else order
    ch = Chain("kw", "probe", {k: np.array(cols[k], copy=True) for k in order}, np.array(w, copy=True),
               setup["cosmology"], rescale=True)
    if rescale_back:
        ch.rescale_from_unity()
    common_kw = dict(interpolate_cosmo=setup["interp"], num_redshift_interp=20)
    cl = CosmoLikelihood([LENS], setup["cosmology"], {}, kb, KDE_likelihood_chain=ch,
                         kwargs_kde_likelihood=dict(setup["kde"]), **common_kw)
    cl0 = CosmoLikelihood([LENS], setup["cosmology"], {}, kb, **common_kw)
    return cl, cl0, ch


def point_args(setup, pt):
    cp = COSMO_PARAMS[setup["cosmology"]]
    return [pt[k] for k in cp if k not in setup["fixed"]]


def gen_point(rng, setup, cols, far=False):
    cp = COSMO_PARAMS[setup["cosmology"]]
    pt = {}
    for k in cp:
        if k in setup["fixed"]:
            pt[k] = setup["fixed"][k]
        elif k in cols:
            s = 2.5 if far else 1.0
            pt[k] = float(np.clip(np.mean(cols[k]) + s * np.std(cols[k]) * rng.normal(), LOWER[k] * 1.01 if LOWER[k] > 0 else LOWER[k] * 0.99,
                                  UPPER[k] * 0.99 if UPPER[k] > 0 else UPPER[k] * 1.01))
        else:
            pt[k] = float(rng.normal(CENTRE[k][0], 0.5 * CENTRE[k][1]))
    return pt


def added_term(cl, cl0, args):
    a = fscalar(cl.likelihood(list(args)))
    b = fscalar(cl0.likelihood(list(args)))
    return a - b, a, b


def kde_tol(val, h, d, n, unit_err=0.0):
    """tolerance on a log-density returned by sklearn's KernelDensity (None = value too small to be trusted).
    * 1e-9 relative + 1e-8 absolute: the term is the difference of two O(10..1e3) log-likelihoods.
    * unit_err: rounding of the unit-cube coordinates, amplified by |d logp/du| <= sqrt(d)*dist/h^2 (dist <~ 1.5).
    * sklearn's tree sums (atol=rtol=0) cancel at ~eps relative to n * the kernel's peak, i.e. the returned
      log-density carries an absolute error ~ eps*n*exp(log_peak - logp) (it floors near log_peak-36; measured
      <= 0.05 of this bound on 3000 random sets).  Where that bound exceeds 1e-4 the value is not compared."""
    peak = -d * np.log(h) - 0.5 * d * np.log(2 * np.pi)
    skl = 4 * EPS * n * np.exp(min(peak - val, 700.0))
    if not np.isfinite(val) or skl > 1e-4:
        return None
    return 1e-8 + 1e-9 * abs(val) + unit_err * 10 * d / h ** 2 + skl


def check_kde_point(rec, rng, inp):
    setup, cols, w = gen_cosmo_setup(rng)
    inp = dict(inp, **setup)
    keys = setup["chain_keys"]
    cl, cl0, ch = make_likelihoods(setup, cols, w)
    U = np.column_stack([unit_of(cols[k])[0] for k in keys])
    h = setup["kde"]["bandwidth"]
    rec.case(dict(check="kde_point", cosmology=setup["cosmology"], keys=keys, fixed=sorted(setup["fixed"]),
                  type=setup["kde"]["likelihood_type"]),
             kind="kde_point:%s:%s" % (setup["cosmology"], setup["kde"]["likelihood_type"]))
    for j in range(3):
        pt = gen_point(rng, setup, cols, far=(j == 2))
        args = point_args(setup, pt)
        inp_j = dict(inp, point=pt)
        try:
            term, a, b = added_term(cl, cl0, args)
        except Exception as e:
            rec.check(False, "C13:kde_point:raises", "CosmoLikelihood.likelihood raised with a KDE chain", inp_j, repr(e))
            return
        if not (np.isfinite(a) and np.isfinite(b)):
            rec.tally("kde_point:nonfinite_skipped")
            continue
        upt = [(pt[k] - np.min(cols[k])) / (np.max(cols[k]) - np.min(cols[k])) for k in keys]
        if setup["kde"]["likelihood_type"] == "kde_full":
            ref = ref_kde_full(U, w, upt, h)
        else:
            ref = ref_kde_hist(U, upt, h, setup["kde"]["nbins_hist"])
        tol = kde_tol(ref, h, len(keys), setup["n"])
        if tol is None:
            rec.tally("kde_point:density_below_sklearn_resolution_skipped")
            continue
        tol += 1e-12 * (abs(a) + abs(b))
        rec.check(abs(term - ref) <= tol, "C13:kde_point:%s" % setup["kde"]["likelihood_type"],
                  "added KDE term != KDE of the chain at the point mapped with the chain's ranges and order", inp_j,
                  term, ref)


AFFINE_A = {"h0": (0.7, 1.4), "om": (0.6, 1.4), "w": (0.8, 1.2), "w0": (0.8, 1.2), "wa": (0.5, 2.0), "ok": (0.5, 2.0)}
AFFINE_B = {"h0": (-10, 10), "om": (-0.05, 0.15), "w": (-0.2, 0.2), "w0": (-0.2, 0.2), "wa": (-0.3, 0.3), "ok": (-0.05, 0.05)}


def check_kde_affine(rec, rng, inp):
    setup, cols, w = gen_cosmo_setup(rng)
    keys = setup["chain_keys"]
    h, d = setup["kde"]["bandwidth"], len(keys)
    changed = [k for k in keys if k not in setup["fixed"] and rng.random() < 0.7]
    if not changed:
        changed = [k for k in keys if k not in setup["fixed"]][:1]
    ab = {k: (float(rng.uniform(*AFFINE_A[k])), float(rng.uniform(*AFFINE_B[k]))) for k in changed}
    order2 = [keys[i] for i in rng.permutation(d)]
    inp = dict(inp, affine=ab, order2=order2, **setup)
    rec.case(dict(check="kde_affine", cosmology=setup["cosmology"], keys=keys, changed=changed, order2=order2,
                  type=setup["kde"]["likelihood_type"]), nontrivial=bool(changed) or order2 != keys,
             kind="kde_affine:%s:%s" % (setup["cosmology"], setup["kde"]["likelihood_type"]))
    cl, cl0, ch = make_likelihoods(setup, cols, w)
    cols2 = {k: (ab[k][0] * cols[k] + ab[k][1] if k in ab else cols[k]) for k in keys}
    clA, _, chA = make_likelihoods(setup, cols2, w)
    clO, _, chO = make_likelihoods(setup, cols, w, order=order2)
    unit_err = max([4 * EPS * col_scale(cols2[k]) / np.ptp(cols2[k]) for k in keys])
    for j in range(2):
        pt = gen_point(rng, setup, cols)
        pt2 = {k: (ab[k][0] * v + ab[k][1] if k in ab else v) for k, v in pt.items()}
        if any(not (LOWER[k] < pt2[k] < UPPER[k]) for k in pt2):
            rec.tally("kde_affine:point_outside_box_skipped")
            continue
        inp_j = dict(inp, point=pt, point_changed_units=pt2)
        try:
            t0, a0, b0 = added_term(cl, cl0, point_args(setup, pt))
            tA, aA, bA = added_term(clA, cl0, point_args(setup, pt2))
            tO, aO, bO = added_term(clO, cl0, point_args(setup, pt))
        except Exception as e:
            rec.check(False, "C13:kde_affine:raises", "CosmoLikelihood.likelihood raised with a KDE chain", inp_j, repr(e))
            return
        if not all(np.isfinite([a0, b0, aA, bA, aO, bO])):
            rec.tally("kde_affine:nonfinite_skipped")
            continue
        # the trust region of sklearn's value is decided on the independent reference, not on the observed term
        upt = [(pt[k] - np.min(cols[k])) / (np.max(cols[k]) - np.min(cols[k])) for k in keys]
        U = np.column_stack([unit_of(cols[k])[0] for k in keys])
        ref = (ref_kde_full(U, w, upt, h) if setup["kde"]["likelihood_type"] == "kde_full"
               else ref_kde_hist(U, upt, h, setup["kde"]["nbins_hist"]))
        tol = kde_tol(ref, h, d, setup["n"], unit_err)
        if tol is None:
            rec.tally("kde_affine:density_below_sklearn_resolution_skipped")
            continue
        tol += 1e-12 * (abs(a0) + abs(b0) + abs(aA) + abs(bA))
        if changed and "rescaled" in chA.rescale_dic:
            rec.check(abs(tA - t0) <= tol, "C13:kde_affine:units",
                      "added KDE term changes under an affine change of units of chain columns", inp_j, tA, t0)
        rec.check(abs(tO - t0) <= tol, "C13:kde_affine:order",
                  "added KDE term changes when the chain's parameter dict is re-ordered", inp_j, tO, t0)
    # history observation: a chain un-rescaled before it is handed to the likelihood
    if rng.random() < 0.25:
        try:
            clR, _, chR = make_likelihoods(setup, cols, w, rescale_back=True)
            pt = gen_point(rng, setup, cols)
            tR, aR, bR = added_term(clR, cl0, point_args(setup, pt))
            t0, a0, b0 = added_term(cl, cl0, point_args(setup, pt))
            if np.isfinite(tR) and np.isfinite(t0):
                # raw-unit KDE evaluated at the raw point, density transformed to the unit cube, would be the
                # consistent answer; the code maps the point to the unit cube but not the samples
                consistent = abs(tR - t0) <= 1e-6 * (1 + abs(t0)) + abs(sum(np.log(np.ptp(cols[k])) for k in keys)) + 50
                if not consistent:
                    rec.tally("observed:unrescaled_chain_point_still_mapped")
                    if REPORT_UNRESCALED_CHAIN:
                        rec.violation("C13:history:unrescaled_chain_in_likelihood",
                                      "chain un-rescaled before use: samples raw, point mapped to unit cube",
                                      dict(inp, point=pt), tR, t0)
        except Exception as e:
            rec.tally("observed:unrescaled_chain_raises:%s" % type(e).__name__)


def check_kde_direct(rec, rng, inp):
    d = int(rng.integers(1, 5))
    n = int(rng.integers(15, 300))
    names = ["q%d" % i for i in rng.permutation(6)[:d]]
    cols = {k: rng.normal(rng.uniform(-5, 5), 10 ** rng.uniform(-1, 1), n) for k in names}
    w = rng.uniform(0.2, 2, n) if rng.random() < 0.6 else np.ones(n)
    ltype = str(rng.choice(["kde_full", "kde_hist_nd"]))
    h = float(10 ** rng.uniform(-1.5, -0.5))
    nb = int(rng.integers(4, 12)) if d <= 3 else int(rng.integers(3, 6))
    ab = {}
    for k in names:
        if rng.random() < 0.7:
            a = float(rng.choice([-1, 1]) * 10 ** rng.uniform(-3, 3))
            b = float(rng.choice([0, 1]) * rng.normal() * 10 ** rng.uniform(-2, 3) * abs(a) * np.ptp(cols[k]))
            ab[k] = (a, b)
    order2 = [names[i] for i in rng.permutation(d)]
    inp = dict(inp, d=d, n=n, names=names, type=ltype, bandwidth=h, nbins=nb, affine=ab, order2=order2)
    rec.case(dict(check="kde_direct", d=d, type=ltype, affine=sorted(ab), order2=order2, neg=[k for k in ab if ab[k][0] < 0]),
             kind="kde_direct:%s:d%d" % (ltype, d))
    kw = dict(likelihood_type=ltype, bandwidth=h)
    if ltype == "kde_hist_nd":
        kw["nbins_hist"] = nb

    def term(cols_, pt_, order):
        ch = Chain("kw", "probe", {k: np.array(cols_[k], copy=True) for k in order}, w.copy(), "X", rescale=True)
        K = KDELikelihood(ch, **kw)
        lp = ch.list_params()
        v = rescale_vector_to_unity(np.array([[pt_[k] for k in lp]], dtype=float), ch.rescale_dic, lp)
        return float(K.kdelikelihood_samples(v)[0])

    cols2 = {k: (ab[k][0] * cols[k] + ab[k][1] if k in ab else cols[k]) for k in names}
    unit_err = max([8 * EPS * col_scale(cols2[k]) / np.ptp(cols2[k]) for k in names])
    if ltype == "kde_hist_nd" and unit_err * n * d * nb > 1e-6:
        # a sample could change bin because of rounding: invariance only holds up to re-binning, skip those
        rec.tally("kde_direct:offset_too_large_for_binning_skipped")
        cols2, ab = cols, {}
    for j in range(2):
        pt = {k: float(np.mean(cols[k]) + 1.0 * np.std(cols[k]) * rng.normal()) for k in names}
        pt2 = {k: (ab[k][0] * v + ab[k][1] if k in ab else v) for k, v in pt.items()}
        inp_j = dict(inp, point=pt)
        t0 = term(cols, pt, names)
        upt = [(pt[k] - np.min(cols[k])) / np.ptp(cols[k]) for k in names]
        U = np.column_stack([unit_of(cols[k])[0] for k in names])
        ref = ref_kde_full(U, w, upt, h) if ltype == "kde_full" else ref_kde_hist(U, upt, h, nb)
        tol = kde_tol(ref, h, d, n, unit_err)
        if tol is None or not np.isfinite(t0):
            rec.tally("kde_direct:density_below_sklearn_resolution_skipped")
            continue
        rec.check(abs(t0 - ref) <= tol, "C13:kde_direct:value:%s" % ltype,
                  "KDELikelihood at the mapped point != independent KDE", inp_j, t0, ref)
        if ab:
            tA = term(cols2, pt2, names)
            rec.check(abs(tA - t0) <= tol, "C13:kde_direct:units:%s" % ltype,
                      "KDE value changes under an affine change of units", inp_j, tA, t0)
        tO = term(cols, pt, order2)
        rec.check(abs(tO - t0) <= tol, "C13:kde_direct:order:%s" % ltype,
                  "KDE value changes under re-ordering of the parameter dict", inp_j, tO, t0)


# ------------------------------------------------------------------------------------------------
# sub-check: Planck import
# ------------------------------------------------------------------------------------------------
KNOWN_LINES = {"ol": "omegal*\t\\Omega_\\Lambda\n", "ns": "ns\tn_s\n", "h0": "H0*\tH_0\n", "om": "omegam*\t\\Omega_m\n",
               "mnu": "mnu\t\\Sigma m_\\nu\n", "nnu": "nnu\tN_{eff}\n", "ok": "omegak\t\\Omega_K\n", "w": "w\tw\n",
               "wa": "wa\tw_a\n", "meffsterile": "meffsterile\tm_{\\nu,{\\rm{sterile}}}^{\\rm{eff}}\n"}
DECOYS = ["omegabh2\t\\Omega_b h^2\n", "omegach2\t\\Omega_c h^2\n", "theta\t100\\theta_{MC}\n", "tau\t\\tau\n",
          "logA\t{\\rm{ln}}(10^{10} A_s)\n", "sigma8*\t\\sigma_8\n", "zrei*\tz_{\\rm re}\n",
          "omegamh2*\t\\Omega_m h^2\n", "omegamh3*\t\\Omega_m h^3\n", "ns02*\tn_{s,0.002}\n", "rdrag*\tr_{\\rm drag}\n",
          "age*\t{\\rm{Age}}/{\\rm{Gyr}}\n", "S8*\tS_8\n", "H0rdrag*\tH_0 r_{\\rm drag}\n", "nrun\tn_{\\rm run}\n",
          "r\tr\n", "yheused*\tY_P\n", "chi2_prior*\t\\chi^2_{\\rm prior}\n"]


def check_planck(rec, rng, inp):
    present = [k for k in KNOWN_LINES if rng.random() < 0.6]
    for k in ("h0", "om"):
        if k not in present and rng.random() < 0.8:
            present.append(k)
    if not present:
        present = ["h0"]
    ndec = int(rng.integers(0, len(DECOYS) + 1))
    lines = [(k, KNOWN_LINES[k]) for k in present] + [(None, DECOYS[i]) for i in rng.permutation(len(DECOYS))[:ndec]]
    lines = [lines[i] for i in rng.permutation(len(lines))]
    req_pool = list(present) + (["w0"] if "w" in present else [])
    m = int(rng.integers(1, len(req_pool) + 1))
    requested = [req_pool[i] for i in rng.permutation(len(req_pool))[:m]]
    rescale = bool(rng.random() < 0.5)
    missing = []
    if not rescale and rng.random() < 0.4:
        missing = [k for k in list(KNOWN_LINES) + ["w0"] if k not in req_pool and not (k == "w0" and "w" in present)][:2]
        requested = requested + missing
    nfiles = int(rng.integers(1, 6))
    rows_per = [int(rng.integers(2, 30)) for _ in range(nfiles)]
    fmt = str(rng.choice(["%.18e", "%.8e", "%.10f", "%r"]))
    kw = str(rng.choice(["base", "base_omegak", "base_w_wa"]))
    probe = str(rng.choice(["plikHM_TTTEEE_lowl_lowE", "probeX", "plikHM_TT_lowl_lowE_post_BAO"]))
    cs = inp["case_seed"]
    root = os.path.join(SCRATCH, "planck_%s" % "_".join(str(c) for c in cs))
    inp = dict(inp, paramnames=[l for _, l in lines], requested=requested, rescale=rescale, nfiles=nfiles,
               rows_per_file=rows_per, fmt=fmt, kw=kw, probe=probe)
    rec.case(dict(check="planck", lines=[k or "decoy" for k, _ in lines], requested=requested, rescale=rescale,
                  nfiles=nfiles), kind="planck:files%d:%s" % (nfiles, "rescale" if rescale else "raw"))
    d = os.path.join(root, kw, probe)
    try:
        os.makedirs(d, exist_ok=True)
        with open(os.path.join(d, "%s_%s.paramnames" % (kw, probe)), "w") as f:
            f.writelines([l for _, l in lines])
        ncol = 2 + len(lines)
        ntot = sum(rows_per)
        ids = rng.permutation(ntot) + 1  # unique weights -> row identity survives any file order
        allrows = []
        r0 = 0
        for i, nr in enumerate(rows_per):
            M = np.empty((nr, ncol))
            M[:, 0] = ids[r0:r0 + nr]
            M[:, 1] = rng.normal(1400, 5, nr)
            for c in range(2, ncol):
                M[:, c] = rng.normal(10.0 * c, 1.0, nr)
            r0 += nr
            with open(os.path.join(d, "%s_%s_%d.txt" % (kw, probe, i + 1)), "w") as f:
                for row in M:
                    toks = [(repr(float(v)) if fmt == "%r" else fmt % v) for v in row]
                    f.write("  " + "   ".join(toks) + "\n")
                    allrows.append([float(t) for t in toks])
        A = np.array(allrows)
        A = A[np.argsort(A[:, 0])]
        try:
            c = import_Planck_chain(root, kw, probe, list(requested), "FLCDM", rescale=rescale)
        except Exception as e:
            rec.check(False, "C13:planck:raises", "import_Planck_chain raised on a well-formed directory", inp, repr(e))
            return
        wgt = np.asarray(c.weights["default"], dtype=float)
        rec.check(wgt.shape == (ntot,) and np.array_equal(np.sort(wgt), A[:, 0]), "C13:planck:weights",
                  "weights are not column 0 of the chain files", inp, wgt[:5], A[:5, 0])
        if wgt.shape != (ntot,) or not np.array_equal(np.sort(wgt), A[:, 0]):
            return
        o = np.argsort(wgt)
        ll = np.asarray(c.loglsamples, dtype=float)
        rec.check(ll.shape == (ntot,) and np.array_equal(ll[o], A[:, 1]), "C13:planck:loglike",
                  "loglsamples are not column 1 of the chain files (row-aligned with the weights)", inp, ll[o][:5], A[:5, 1])
        rec.check(list(c.params.keys()) == list(requested), "C13:planck:keys", "imported parameter names != requested",
                  inp, list(c.params.keys()), requested)
        line_of = {}
        for ind, (k, _) in enumerate(lines):
            if k is not None:
                line_of[k] = ind
        if "w" in line_of:
            line_of["w0"] = line_of["w"]
        for p in requested:
            got = np.asarray(c.params.get(p, []), dtype=float)
            if p in missing:
                rec.check(got.size == 0 and p not in c.list_params(), "C13:planck:missing_param",
                          "a parameter not named in .paramnames received a column", dict(inp, param=p), got[:5], "empty")
                continue
            col = A[:, line_of[p] + 2]
            if rescale:
                u, hi, lo = unit_of(col)
                ok = got.shape == (ntot,) and np.allclose(got[o], u, rtol=0, atol=1e-12)
                rd = c.rescale_dic.get(p)
                ok2 = rd is not None and rd[0] == hi and rd[1] == lo
                rec.check(ok2, "C13:planck:ranges", "rescale_dic of the imported chain != [max,min] of the named column",
                          dict(inp, param=p), rd, [hi, lo])
            else:
                ok = got.shape == (ntot,) and np.array_equal(got[o], col)
            rec.check(ok, "C13:planck:column:%s" % p,
                      "parameter is not the column at (line number in .paramnames)+2, row-aligned", dict(inp, param=p),
                      got[o][:4] if got.shape == (ntot,) else got.shape, (unit_of(col)[0] if rescale else col)[:4])
        # end to end: a chain imported with its own ranges used as KDE prior of a cosmological likelihood.  The
        # synthetic columns sit at 10*c (not a valid Omega_m), so the cosmology is held fixed (cosmo_fixed) and only
        # the KDE term sees the sampled point.
        if "h0" in present and "om" in present and rng.random() < 0.7:
            from astropy.cosmology import FlatLambdaCDM
            ck = ["h0", "om"] if rng.random() < 0.5 else ["om", "h0"]
            c2 = import_Planck_chain(root, kw, probe, list(ck), "FLCDM", rescale=True)
            kb = dict(kwargs_lower_cosmo=dict(h0=0., om=0.), kwargs_upper_cosmo=dict(h0=1000., om=1000.))
            cf = FlatLambdaCDM(H0=70., Om0=0.3)
            kde = dict(likelihood_type="kde_full", bandwidth=0.2)
            clk = CosmoLikelihood([LENS], "FLCDM", {}, kb, KDE_likelihood_chain=c2, kwargs_kde_likelihood=kde,
                                  cosmo_fixed=cf, num_redshift_interp=20)
            cl0 = CosmoLikelihood([LENS], "FLCDM", {}, kb, cosmo_fixed=cf, num_redshift_interp=20)
            pt = {k: float(np.mean(A[:, line_of[k] + 2]) + rng.normal()) for k in ("h0", "om")}
            term, a, b = added_term(clk, cl0, [pt["h0"], pt["om"]])
            U = np.column_stack([unit_of(A[:, line_of[k] + 2])[0] for k in ck])
            upt = [(pt[k] - np.min(A[:, line_of[k] + 2])) / np.ptp(A[:, line_of[k] + 2]) for k in ck]
            ref = ref_kde_full(U, A[:, 0], upt, 0.2)
            tolp = kde_tol(ref, 0.2, 2, ntot)
            rec.check(tolp is None or abs(term - ref) <= tolp, "C13:planck:kde_end_to_end",
                      "KDE term of an imported chain != weighted KDE of the named file columns",
                      dict(inp, point=pt, chain_order=ck), term, ref)
    finally:
        shutil.rmtree(root, ignore_errors=True)


# ------------------------------------------------------------------------------------------------
# boundary: constant column (known finding)
# ------------------------------------------------------------------------------------------------
def check_constant(rec, rng, inp):
    n = int(rng.integers(1, 50))
    d = int(rng.integers(1, 4))
    names = ["p%d" % i for i in range(d)]
    const = names[int(rng.integers(0, d))] if n > 1 else names[0]
    cval = float(rng.choice([0.0, 1.0, -1.0, 3.046, 0.06]))
    cols = {k: (np.full(n, cval) if (k == const or n == 1) else rng.normal(0, 1, n)) for k in names}
    if n > 1:
        for k in names:
            if k != const and np.ptp(cols[k]) == 0:
                cols[k][0] += 1.0
    inp = dict(inp, n=n, names=names, constant=const, value=cval)
    rec.case(dict(check="constant", n=n, d=d, value=cval), kind="boundary:constant_column")
    try:
        ch = Chain("kw", "probe", {k: v.copy() for k, v in cols.items()}, np.ones(n), "FLCDM", rescale=True)
        bad = [k for k in names if not np.all(np.isfinite(ch.params[k]))]
        ch.rescale_from_unity()
        bad_back = [k for k in names if not np.allclose(ch.params[k], cols[k], rtol=1e-12, atol=0)]
        rec.check(not bad and not bad_back, "C13:constant_column",
                  "constant column (max == min): rescale_to_unity divides 0/0 -> NaN, round trip lost", inp,
                  dict(nan_after_to_unity=bad, not_restored=bad_back), "finite unit values, samples restored")
        others = [k for k in names if np.ptp(cols[k]) > 0]
        rec.check(all(np.allclose(ch.params[k], cols[k], rtol=1e-12, atol=1e-12 * col_scale(cols[k])) for k in others),
                  "C13:constant:other_columns", "non-constant columns of a chain with a constant column not restored", inp)
    except Exception as e:
        rec.check(False, "C13:constant_column", "constant column: rescaling raised", inp, repr(e))


CHECKS = dict(history=check_history, vector=check_vector, kde_point=check_kde_point, kde_affine=check_kde_affine,
              kde_direct=check_kde_direct, planck=check_planck, constant=check_constant)
SALT = dict(history=1, vector=2, kde_point=3, kde_affine=4, kde_direct=5, planck=6, constant=7)
PLAN = dict(quick=dict(history=150, vector=80, kde_point=40, kde_affine=40, kde_direct=60, planck=40, constant=5),
            thorough=dict(history=2500, vector=1200, kde_point=500, kde_affine=450, kde_direct=700, planck=500,
                          constant=30))


def run_case(rec, name, cs):
    rng = np.random.default_rng([int(c) for c in cs])
    try:
        CHECKS[name](rec, rng, dict(check=name, case_seed=[int(c) for c in cs]))
    except Exception:
        rec.error("%s %s: %s" % (name, cs, traceback.format_exc(limit=6)))


def main():
    args = parse_args(PROP)
    rec = Recorder(PROP, args.tier, args.seed, RULE)
    np.random.seed(args.seed % (2 ** 31))
    os.makedirs(SCRATCH, exist_ok=True)
    try:
        if args.replay:
            with open(args.replay) as f:
                rp = json.load(f)
            i = unjson(rp["input"])
            run_case(rec, i["check"], i["case_seed"])
        else:
            for name, cnt in PLAN[args.tier].items():
                for i in range(cnt):
                    run_case(rec, name, [args.seed, SALT[name], i])
    finally:
        shutil.rmtree(SCRATCH, ignore_errors=True)
    out = rec.write(args.out)
    print("C13 %s seed=%d: %d cases, %d violations %s, %d errors, %.1fs" % (
        args.tier, args.seed, out["evaluations"], len(out["violations"]), sorted(out["violation_counts"]),
        len(out["errors"]), out["wall_s"]))


if __name__ == "__main__":
    main()
