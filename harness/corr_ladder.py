#!/venv/bin/python
"""C01: correspondence of the LADDER semantics (coq/C01/LTree.v, Slots.v - the semantics in which the all-configuration theorems are proved)
with CPython.  For random configurations over all switches (the generator of the C01 oracle) the REAL parameter blocks (cosmo, lens, kin,
source) are built; args2kwargs / kwargs2args run in CPython; for each case a Coq lemma states that running the ladder READ FROM THE
SERIALISED SOURCE (Instances.<block>_block) in the configuration record of that very object (its bool / str / int attributes, its fixed
dictionary, its float attributes) yields the same dictionary and end index / the same vector / the same refusal.  Closed by lazy evaluation
+ Interval (10**x against the float CPython computed).  coq/C01/LadderCorr.v."""
import os, sys, json, time, subprocess, argparse, re
sys.path.insert(0, os.path.dirname(os.path.abspath(__file__)))
import numpy as np
from corr_pysem import coq_real, q

VERIF = os.path.dirname(os.path.dirname(os.path.abspath(__file__)))
BASE = os.path.join(VERIF, "coq", "Base")
BLOCKS = [("_cosmo_param", "cosmo_block", "cosmo"), ("_lens_param", "lens_block", "lens"), ("_kin_param", "kin_block", "kin"), ("_source_param", "source_block", "source")]


def cfg_term(obj):
    bs, ss, ns, fx, cs = [], [], [], [], []
    for k, v in vars(obj).items():
        if isinstance(v, (bool, np.bool_)): bs.append("(%s, %s)" % (q(k), "true" if v else "false"))
        elif isinstance(v, str): ss.append("(%s, %s)" % (q(k), q(v)))
        elif isinstance(v, (int, np.integer)): ns.append("(%s, %d%%nat)" % (q(k), int(v)))
        elif isinstance(v, (float, np.floating)): cs.append("(%s, %s)" % (q(k), coq_real(v)))
        elif k == "_kwargs_fixed" and isinstance(v, dict):
            fx = ["(%s, %s)" % (q(a), coq_real(b)) for a, b in v.items()]
    return "(mk_cfg [%s] [%s] [%s] [%s] [%s])" % ("; ".join(bs), "; ".join(ss), "; ".join(ns), "; ".join(fx), "; ".join(cs))


def rlist(xs):
    return "[%s]" % "; ".join(coq_real(x) for x in xs)


def dict_term(d):
    items = []
    for k, v in d.items():
        vs = list(v) if isinstance(v, (list, tuple, np.ndarray)) else [v]
        items.append("(%s, %s)" % (q(k), rlist(vs)))
    return "[%s]" % "; ".join(items)


def main():
    ap = argparse.ArgumentParser()
    ap.add_argument("--tier", default="quick"); ap.add_argument("--seed", type=int, default=0)
    ap.add_argument("--out", required=True); ap.add_argument("--builddir", required=True)
    a = ap.parse_args()
    t0 = time.time()
    import oracle_C01 as O
    g = np.random.default_rng([int(a.seed), 4242])
    n = 30 if a.tier == "quick" else 300
    lemmas, dist = [], {}
    k = 0
    while len(lemmas) < 3 * n and k < 20 * n:
        k += 1
        cfg = O.rand_cfg(g, ["mixed", "dense", "sparse", "degenerate", "dense"][k % 5])
        for b in ["cosmo", "lens", "kin", "source"]:
            if cfg.get("kwargs_fixed_" + b): cfg["kwargs_fixed_" + b] = {kk: float(round(v, 2)) for kk, v in cfg["kwargs_fixed_" + b].items()}
        lo = O.values_for(cfg, g, -3, -1); hi = O.values_for(cfg, g, 1, 3)
        try:
            pm = O.build_pm(cfg, (lo, hi))
        except Exception:
            continue
        attr, blk, bname = BLOCKS[k % 4]
        obj = getattr(pm, attr)
        cterm = cfg_term(obj)
        nb = len(obj.param_list())
        i0 = int(g.integers(0, 3))
        x = [float(round(v, 3)) for v in g.uniform(-2, 2, i0 + nb)]
        short = (k % 7 == 3 and nb > 0)
        if short: x = x[:-1]
        name = "lad_%04d" % len(lemmas)
        try:
            kw, nend = obj.args2kwargs(list(x), i=i0)
            stmt = "a2k_agrees %s %s %s %d%%nat %s %d%%nat (1 / 1000000000)" % (blk, cterm, rlist(x), i0, dict_term(kw), nend)
            kind = "a2k/" + bname
        except IndexError:
            stmt = "a2k_refuses %s %s %s %d%%nat" % (blk, cterm, rlist(x), i0)
            kind = "a2k_short/" + bname
        lemmas.append((name, kind, stmt)); dist[kind] = dist.get(kind, 0) + 1
        # dictionaries -> vector
        vals = O.values_for(cfg, g, 0.1, 3)[bname]
        vals = {kk: ([float(round(v, 3)) for v in vv] if isinstance(vv, list) else float(round(vv, 3))) for kk, vv in vals.items()}
        try:
            out = obj.kwargs2args(vals)
            name = "lad_%04d" % len(lemmas)
            lemmas.append((name, "k2a/" + bname, "k2a_agrees %s %s %s %s (1 / 1000000000)" % (blk, cterm, dict_term(vals), rlist(out))))
            dist["k2a/" + bname] = dist.get("k2a/" + bname, 0) + 1
        except Exception:
            pass
    nshard = max(1, min(14, (len(lemmas) + 11) // 12))
    mism = []

    def run(si):
        part = lemmas[si::nshard]
        for _ in range(5):
            if not part: return
            path = os.path.join(a.builddir, "LadCorr_%d.v" % si)
            with open(path, "w") as f:
                f.write("From Coq Require Import Reals ZArith List String Bool Lra.\nFrom Interval Require Import Tactic.\n"
                        "Require Import Py.PyAst Py.PyVal Py.Corr.\nRequire Import C01.LTree C01.Slots C01.Blocks C01.Instances C01.LadderCorr.\n"
                        "Import ListNotations.\nOpen Scope string_scope.\nOpen Scope R_scope.\n")
                for nm, kind, stmt in part:
                    f.write("(* %s *)\nLemma %s : %s.\nProof. lad_case. Qed.\n" % (kind, nm, stmt))
            try:
                p = subprocess.run("timeout 900 coqc -q -Q %s Py -Q . C01 LadCorr_%d.v" % (BASE, si), shell=True, cwd=a.builddir,
                                   stdout=subprocess.PIPE, stderr=subprocess.PIPE, text=True, timeout=930)
                rc, err = p.returncode, p.stderr
            except subprocess.TimeoutExpired:
                rc, err = 124, "TIMEOUT"
            if rc == 0: return
            m = re.search(r"line (\d+), characters", err)
            bad = None
            if m:
                ln = int(m.group(1)); cur = None
                for i, line in enumerate(open(path).read().splitlines(), 1):
                    t = re.match(r"Lemma (lad_\d+)", line)
                    if t and i <= ln + 1: cur = t.group(1)
                bad = next((l for l in part if l[0] == cur), None)
            if bad is None:
                mism.append(dict(case="ladder shard %d" % si, detail=err.strip()[-600:])); return
            mism.append(dict(case="ladder:" + bad[1], lemma=bad[0], statement=bad[2][:600], detail=err.strip()[-600:]))
            part = [l for l in part if l[0] != bad[0]]
    from concurrent.futures import ThreadPoolExecutor
    with ThreadPoolExecutor(max_workers=14) as ex:
        list(ex.map(run, range(nshard)))
    json.dump(dict(kind="ladder semantics (LTree/Slots on the blocks read from the serialised source) vs CPython on real parameter blocks",
                   cases=len(lemmas), distribution=dist, shards=nshard, wall_s=round(time.time() - t0, 1), mismatches=mism), open(a.out, "w"), indent=1)
    print("corr_ladder: %d cases, %d mismatches, %.0fs" % (len(lemmas), len(mism), time.time() - t0))


if __name__ == "__main__":
    main()
